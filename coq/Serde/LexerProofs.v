(* Proofs about Lexer.v: the literal the printer writes for a string or byte
   string is exactly one STRING / BYTESTRING token, whatever follows. *)
From Coq Require Import List ZArith Bool Lia.
From MV Require Import Serde.Escape Serde.EscapeProofs Serde.Lexer.
Import ListNotations.
Open Scope Z_scope.

Definition sb_lift (pre : list Z) (o : option (list Z * list Z)) : option (list Z * list Z) :=
  match o with Some (a, b) => Some (pre ++ a, b) | None => None end.

Lemma sb_lift_app : forall p q o, sb_lift (p ++ q) o = sb_lift p (sb_lift q o).
Proof. intros p q [[a b]|]; simpl; [rewrite app_assoc|]; reflexivity. Qed.

(* ---- one escaped character is one string item ---------------------------- *)
Lemma sb_ascii_step : forall c, 0 <= c < 128 -> forall t,
  string_body 34 0 (esc_ascii_go true false c ++ t) = sb_lift (esc_ascii_go true false c) (string_body 34 0 t).
Proof.
  intros c Hc. apply (in_range_seq 128) in Hc. vm_compute in Hc.
  repeat (destruct Hc as [Hc|Hc];
          [subst c; intros t; cbn; destruct (string_body 34 0 t) as [[a b]|]; reflexivity|]).
  contradiction.
Qed.

Lemma sb_byte_step : forall c, byte c -> forall t,
  string_body 34 0 (escape_byte true c ++ t) = sb_lift (escape_byte true c) (string_body 34 0 t).
Proof.
  intros c Hc. apply (in_range_seq 256) in Hc. vm_compute in Hc.
  repeat (destruct Hc as [Hc|Hc];
          [subst c; intros t; cbn; destruct (string_body 34 0 t) as [[a b]|]; reflexivity|]).
  contradiction.
Qed.

Lemma lex_hex_hexdigit : forall n, 0 <= n < 16 -> lex_hex (hexdigit n) = true.
Proof.
  intros n Hn. apply (in_range_seq 16) in Hn. vm_compute in Hn.
  repeat (destruct Hn as [Hn|Hn]; [subst n; reflexivity|]).
  contradiction.
Qed.

Lemma sb_rune_step : forall r, 0 <= r < 16777216 -> forall t,
  string_body 34 0 (esc_rune r ++ t) = sb_lift (esc_rune r) (string_body 34 0 t).
Proof.
  intros r Hr t. destruct (rune_bytes r Hr) as (Ha & Hb & Hc & _).
  destruct (nibbles _ Ha) as [A1 A2]. destruct (nibbles _ Hb) as [B1 B2]. destruct (nibbles _ Hc) as [C1 C2].
  unfold esc_rune, hex2. cbn [app].
  cbn [string_body].
  replace (92 =? 34) with false by reflexivity. replace (92 =? 92) with true by reflexivity.
  cbn [esc_seq_len].
  replace ((117 =? 110) || (117 =? 116) || (117 =? 34) || (117 =? 39) || (117 =? 92) || (117 =? 10)) with false by reflexivity.
  replace (117 =? 120) with false by reflexivity. replace (117 =? 117) with true by reflexivity.
  replace (123 =? 123) with true by reflexivity.
  rewrite !lex_hex_hexdigit by assumption.
  rewrite !hexdigit_not_brace by assumption.
  cbn [andb]. replace (125 =? 125) with true by reflexivity.
  cbn [string_body].
  destruct (string_body 34 0 t) as [[a b]|]; reflexivity.
Qed.

(* ---- whole literals ------------------------------------------------------- *)
Lemma string_body_escape_bytes : forall s, Forall byte s -> forall rest,
  string_body 34 0 (escape_bytes s ++ 34 :: rest) = Some (escape_bytes s, rest).
Proof.
  induction 1 as [|c s Hc Hs IH]; intros rest; [reflexivity|].
  unfold escape_bytes, escape_bytes_go in *. cbn [flat_map]. rewrite <- app_assoc.
  rewrite sb_byte_step by exact Hc. rewrite IH. reflexivity.
Qed.

Lemma string_body_escape_string : forall n s e, (length s <= n)%nat -> Forall byte s ->
  escape_string_go true 0 s = Some e -> forall rest,
  string_body 34 0 (e ++ 34 :: rest) = Some (e, rest).
Proof.
  induction n as [|n IH]; intros s e Hlen Hb He rest.
  { destruct s; [|simpl in Hlen; lia]. inversion He; subst. reflexivity. }
  destruct s as [|c r]; [inversion He; subst; reflexivity|].
  inversion Hb as [|? ? Hc Hr]; subst.
  cbn [escape_string_go] in He.
  destruct (c <? 128) eqn:Hlt.
  - apply Z.ltb_lt in Hlt. unfold byte in Hc.
    destruct (escape_string_go true 0 r) as [e'|] eqn:Hr'; [|discriminate].
    remember (esc_ascii_go true false c) as ea eqn:Hea in He.
    cbn [option_map] in He. injection He as He. subst e ea.
    rewrite <- app_assoc. rewrite sb_ascii_step by lia.
    rewrite (IH r e' ltac:(change (length (c :: r)) with (S (length r)) in Hlen; lia) Hr Hr' rest).
    reflexivity.
  - destruct (utf8_decode (c :: r)) as [[rune k]|] eqn:Hd; [|discriminate].
    destruct (utf8_decode_encode _ _ _ Hd) as (Hrange & Hfirst & Hk & Hk1).
    destruct (escape_string_go true (Nat.pred k) r) as [e'|] eqn:Hr'; [|discriminate].
    remember (esc_rune rune) as er eqn:Her in He.
    cbn [option_map] in He. injection He as He. subst e er.
    rewrite escape_string_skip in Hr'.
    assert (Hskip : skipn (Nat.pred k) r = skipn k (c :: r)) by (destruct k; [lia | reflexivity]).
    rewrite Hskip in Hr'.
    assert (Hsb : Forall byte (skipn k (c :: r))).
    { rewrite <- (firstn_skipn k (c :: r)) in Hb. apply Forall_app in Hb. apply Hb. }
    assert (Hsl : (length (skipn k (c :: r)) <= n)%nat).
    { rewrite skipn_length. change (length (c :: r)) with (S (length r)) in *. lia. }
    unfold max_rune in Hrange.
    rewrite <- app_assoc. rewrite sb_rune_step by lia.
    rewrite (IH _ e' Hsl Hsb Hr' rest). reflexivity.
Qed.

(* the tokens *)
Lemma next_token_string : forall s e rest, Forall byte s -> escape_string s = Some e ->
  next_token (34 :: e ++ 34 :: rest) = LTok (TString e) rest.
Proof.
  intros s e rest Hb He. unfold escape_string in He.
  unfold next_token. cbn [skip_hidden]. replace (is_blank 34) with false by reflexivity.
  replace (34 =? 35) with false by reflexivity.
  unfold lex_visible. replace (is_digit 34) with false by reflexivity.
  replace (34 =? 45) with false by reflexivity. replace (34 =? 46) with false by reflexivity.
  replace (34 =? 47) with false by reflexivity. replace (is_quote 34) with true by reflexivity.
  rewrite (string_body_escape_string (length s) s e (le_n _) Hb He rest). reflexivity.
Qed.

Lemma next_token_bytestring : forall s rest, Forall byte s ->
  next_token (98 :: 34 :: escape_bytes s ++ 34 :: rest) = LTok (TByteString (escape_bytes s)) rest.
Proof.
  intros s rest Hb.
  unfold next_token. cbn [skip_hidden]. replace (is_blank 98) with false by reflexivity.
  replace (98 =? 35) with false by reflexivity.
  unfold lex_visible. replace (is_digit 98) with false by reflexivity.
  replace (98 =? 45) with false by reflexivity. replace (98 =? 46) with false by reflexivity.
  replace (98 =? 47) with false by reflexivity. replace (is_quote 98) with false by reflexivity.
  replace (is_lower 98) with true by reflexivity.
  unfold lex_lower. replace (98 =? 98) with true by reflexivity.
  replace (is_quote 34) with true by reflexivity.
  rewrite string_body_escape_bytes by exact Hb. reflexivity.
Qed.
