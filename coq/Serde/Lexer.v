(* Model of the lexer rules of parse/gen/Mangle.g4 (the generated lexer is
   parse/gen/mangle_lexer.go) as recognisers over byte lists: one call of
   [next_token] skips WHITESPACE / COMMENT and returns the longest token that
   starts there (ANTLR: longest match, ties go to the rule written first).
   Input is ASCII, except inside string literals, where any byte other than
   the backslash and the closing quote is taken as it is (the grammar says
   "any character"; on valid UTF-8 text the two readings coincide because the
   quote and the backslash never occur inside a multi-byte sequence).
   The long left double arrow (U+27F8) is not modelled.
   Executable definitions only; proofs are in LexerProofs.v. *)
From Coq Require Import List ZArith Bool String.
From MV Require Export Serde.Escape.
Import ListNotations.
Open Scope Z_scope.

Inductive token :=
| TVariable (s : list Z)            (* VARIABLE *)
| TName (s : list Z)           (* NAME *)
| TConstant (s : list Z)       (* CONSTANT: /a/b *)
| TNumber (s : list Z)         (* NUMBER, text *)
| TFloat (s : list Z)          (* FLOAT, text *)
| TString (s : list Z)         (* STRING, the text between the quotes *)
| TByteString (s : list Z)     (* BYTESTRING, the text between the quotes *)
| TTimestamp (s : list Z)
| TDuration (s : list Z)
| TLBracket | TRBracket | TLBrace | TRBrace | TLParen | TRParen
| TComma | TColon | TDot | TAt | TBang | TEq | TBangEq
| TLess | TLessEq | TGreater | TGreaterEq | TColonDash | TPipeGreater
| TDiamondMinus | TDiamondPlus | TBoxMinus | TBoxPlus
| TKeyword (s : list Z)        (* Package Use Decl bound let do descr inclusion now opt temporal *)
| TTypeName (s : list Z)       (* TYPENAME (only reachable when longer than a VARIABLE) *)
| TDotType (s : list Z).       (* DOT_TYPE *)

Inductive lexres :=
| LEof                          (* only blanks and comments left *)
| LErr                          (* token recognition error *)
| LTok (t : token) (rest : list Z).

(* ---- character classes (Mangle.g4:163-187) ------------------------------- *)
Definition is_lower (c : Z) : bool := in_range 97 122 c.
Definition is_upper (c : Z) : bool := in_range 65 90 c.
Definition var_char (c : Z) : bool := is_letter c || is_digit c.
Definition lex_name_char (c : Z) : bool := is_letter c || is_digit c || (c =? 58) || (c =? 95).
(* HEXDIGIT : 'a'..'f' | '0'..'9' (lower case only) *)
Definition lex_hex (c : Z) : bool := is_digit c || in_range 97 102 c.
Definition is_blank (c : Z) : bool :=
  (c =? 9) || (c =? 32) || (c =? 13) || (c =? 10) || (c =? 12).

(* longest prefix of characters satisfying p *)
Fixpoint span (p : Z -> bool) (s : list Z) : list Z * list Z :=
  match s with
  | [] => ([], [])
  | c :: r => if p c then let (a, b) := span p r in (c :: a, b) else ([], s)
  end.

(* ( X | '.' X )* for a character class X: NAME and TYPENAME tails *)
Fixpoint span_dotted (p : Z -> bool) (s : list Z) : list Z * list Z :=
  match s with
  | [] => ([], [])
  | c :: r =>
      if p c then let (a, b) := span_dotted p r in (c :: a, b)
      else if c =? 46 then
        match r with
        | d :: r' => if p d then let (a, b) := span_dotted p r' in (c :: d :: a, b) else ([], s)
        | [] => ([], s)
        end
      else ([], s)
  end.

(* CONSTANT_CHAR+ ('/' CONSTANT_CHAR+)* ; [s] starts after the first '/'.
   [fresh] = no character of the current part has been read yet. *)
Fixpoint span_constant (fresh : bool) (s : list Z) : option (list Z * list Z) :=
  match s with
  | [] => if fresh then None else Some ([], [])
  | c :: r =>
      if constant_char c then
        match span_constant false r with
        | Some (a, b) => Some (c :: a, b)
        | None => None
        end
      else if fresh then None
      else if c =? 47 then
        (* a further part only if a CONSTANT_CHAR follows; else the token ends here *)
        match span_constant true r with
        | Some (a, b) => Some (c :: a, b)
        | None => Some ([], s)
        end
      else Some ([], s)
  end.

(* ---- STRING (Mangle.g4:189-229) ------------------------------------------ *)
(* length of a STRING_ESCAPE_SEQ without its backslash; [s] starts after it *)
Definition esc_seq_len (s : list Z) : option nat :=
  match s with
  | [] => None
  | e :: r =>
      if (e =? 110) || (e =? 116) || (e =? 34) || (e =? 39) || (e =? 92) || (e =? 10) then Some 1%nat
      else if e =? 120 then
        match r with
        | h :: l :: _ => if lex_hex h && lex_hex l then Some 3%nat else None
        | _ => None
        end
      else if e =? 117 then
        match r with
        | b :: h1 :: h2 :: h3 :: h4 :: r4 =>
            if (b =? 123) && lex_hex h1 && lex_hex h2 && lex_hex h3 && lex_hex h4 then
              match r4 with
              | c5 :: r5 =>
                  if c5 =? 125 then Some 7%nat
                  else if lex_hex c5 then
                    match r5 with
                    | c6 :: r6 =>
                        if c6 =? 125 then Some 8%nat
                        else if lex_hex c6 then
                          match r6 with
                          | c7 :: _ => if c7 =? 125 then Some 9%nat else None
                          | [] => None
                          end
                        else None
                    | [] => None
                    end
                  else None
              | [] => None
              end
            else None
        | _ => None
        end
      else None
  end.

(* the items of a string up to the closing quote [q] (34, 39 or 96): Some (text
   between the quotes, rest after the closing quote) *)
Fixpoint string_body (q : Z) (skip : nat) (s : list Z) : option (list Z * list Z) :=
  match s with
  | [] => None
  | c :: r =>
      match skip with
      | S k => match string_body q k r with Some (a, b) => Some (c :: a, b) | None => None end
      | O =>
          if c =? q then Some ([], r)
          else if c =? 92 then
            match esc_seq_len r with
            | None => None
            | Some n => match string_body q n r with Some (a, b) => Some (c :: a, b) | None => None end
            end
          else match string_body q 0 r with Some (a, b) => Some (c :: a, b) | None => None end
      end
  end.

Definition is_quote (c : Z) : bool := (c =? 34) || (c =? 39) || (c =? 96).

(* ---- numeric tokens (Mangle.g4:148-160) ---------------------------------- *)
(* EXPONENT : ('e'|'E') ('+'|'-')? DIGIT+ ; Some (text, rest) when complete *)
Definition lex_exponent (s : list Z) : option (list Z * list Z) :=
  match s with
  | e :: r =>
      if (e =? 101) || (e =? 69) then
        match r with
        | g :: r' =>
            if (g =? 43) || (g =? 45) then
              let (d, r'') := span is_digit r' in
              match d with [] => None | _ => Some (e :: g :: d, r'') end
            else
              let (d, r'') := span is_digit r in
              match d with [] => None | _ => Some (e :: d, r'') end
        | [] => None
        end
      else None
  | [] => None
  end.

Definition with_exponent (pre s : list Z) : list Z * list Z :=
  match lex_exponent s with
  | Some (e, r) => (pre ++ e, r)
  | None => (pre, s)
  end.

(* two digits *)
Definition dd (a b : Z) : bool := is_digit a && is_digit b.

(* TIMESTAMP with the four year digits already read: [s] starts at the '-'.
   Some (text after the year, rest) *)
Definition lex_timestamp_tail (s : list Z) : option (list Z * list Z) :=
  match s with
  | m0 :: a :: b :: m1 :: c :: d :: r =>
      if (m0 =? 45) && dd a b && (m1 =? 45) && dd c d then
        let date := [m0; a; b; m1; c; d] in
        match r with
        | t :: h1 :: h2 :: c1 :: n1 :: n2 :: c2 :: s1 :: s2 :: r' =>
            if (t =? 84) && dd h1 h2 && (c1 =? 58) && dd n1 n2 && (c2 =? 58) && dd s1 s2 then
              let time := [t; h1; h2; c1; n1; n2; c2; s1; s2] in
              (* ('.' DIGIT+)? 'Z'? *)
              let (frac, r2) :=
                match r' with
                | p :: r'' =>
                    if p =? 46 then
                      let (f, r3) := span is_digit r'' in
                      match f with [] => ([], r') | _ => (p :: f, r3) end
                    else ([], r')
                | [] => ([], r')
                end in
              match r2 with
              | z :: r3 => if z =? 90 then Some (date ++ time ++ frac ++ [z], r3)
                           else Some (date ++ time ++ frac, r2)
              | [] => Some (date ++ time ++ frac, r2)
              end
            else Some (date, r)
        | _ => Some (date, r)
        end
      else None
  | _ => None
  end.

(* a token that starts with a digit, or with '-' / '.' followed by what makes a
   number: TIMESTAMP, DURATION, NUMBER, FLOAT; the longest wins. *)
Definition lex_numeric (s : list Z) : lexres :=
  let (neg, s1) := match s with c :: r => if c =? 45 then ([45], r) else ([], s) | [] => ([], s) end in
  let (ds, r) := span is_digit s1 in
  match ds with
  | [] =>
      (* '-'? '.' DIGIT+ EXPONENT? *)
      match r with
      | p :: r' =>
          if p =? 46 then
            let (fs, r2) := span is_digit r' in
            match fs with
            | [] => LErr
            | _ => let (t, r3) := with_exponent (neg ++ p :: fs) r2 in LTok (TFloat t) r3
            end
          else LErr
      | [] => LErr
      end
  | _ =>
      let number := LTok (TNumber (neg ++ ds)) r in
      match r with
      | [] => number
      | p :: r' =>
          if p =? 46 then
            let (fs, r2) := span is_digit r' in
            match fs with
            | [] => number
            | _ => let (t, r3) := with_exponent (neg ++ ds ++ p :: fs) r2 in LTok (TFloat t) r3
            end
          else match neg with
          | _ :: _ => number
          | [] =>
              if (p =? 45) && (List.length ds =? 4)%nat then
                match lex_timestamp_tail r with
                | Some (t, r2) => LTok (TTimestamp (ds ++ t)) r2
                | None => number
                end
              else if p =? 109 then
                match r' with
                | q :: r2 => if q =? 115 then LTok (TDuration (ds ++ [p; q])) r2
                             else LTok (TDuration (ds ++ [p])) r'
                | [] => LTok (TDuration (ds ++ [p])) r'
                end
              else if (p =? 100) || (p =? 104) || (p =? 115) then LTok (TDuration (ds ++ [p])) r'
              else number
          end
      end
  end.

(* ---- words --------------------------------------------------------------- *)
Definition kw_list : list (list Z) :=
  [ bs "Package"%string; bs "Use"%string; bs "Decl"%string; bs "bound"%string; bs "let"%string;
    bs "do"%string; bs "descr"%string; bs "inclusion"%string; bs "now"%string; bs "opt"%string;
    bs "temporal"%string ].
Fixpoint mem_bytes (x : list Z) (l : list (list Z)) : bool :=
  match l with [] => false | y :: r => bytes_eqb x y || mem_bytes x r end.
Definition keywords : list (list Z) := Eval vm_compute in kw_list.

(* a word that starts with a lower-case letter (or ':' + lower-case letter):
   NAME, a keyword, or the prefix of a BYTESTRING *)
Definition lex_lower (s : list Z) : lexres :=
  match s with
  | c :: r =>
      let bytestring :=
        if c =? 98 then
          match r with
          | q :: r' => if is_quote q then
                         match string_body q 0 r' with
                         | Some (t, r2) => Some (LTok (TByteString t) r2)
                         | None => None
                         end
                       else None
          | [] => None
          end
        else None in
      match bytestring with
      | Some res => res
      | None =>
          let (t, r2) := span_dotted lex_name_char r in
          let w := c :: t in
          if mem_bytes w keywords then LTok (TKeyword w) r2 else LTok (TName w) r2
      end
  | [] => LErr
  end.

(* a word that starts with an upper-case letter: VARIABLE, TYPENAME or one of
   Package / Use / Decl *)
Definition lex_upper (s : list Z) : lexres :=
  match s with
  | c :: r =>
      let (v, rv) := span var_char r in
      let (t, rt) := span_dotted lex_name_char r in
      if (List.length v <? List.length t)%nat then LTok (TTypeName (c :: t)) rt
      else if mem_bytes (c :: v) keywords then LTok (TKeyword (c :: v)) rv
      else LTok (TVariable (c :: v)) rv
  | [] => LErr
  end.

(* ---- one token ----------------------------------------------------------- *)
(* WHITESPACE and COMMENT go to the hidden channel *)
Fixpoint skip_hidden (in_comment : bool) (s : list Z) : list Z :=
  match s with
  | [] => []
  | c :: r =>
      if in_comment then skip_hidden (negb (c =? 10)) r
      else if is_blank c then skip_hidden false r
      else if c =? 35 then skip_hidden true r
      else s
  end.

Definition head_is (p : Z -> bool) (s : list Z) : bool :=
  match s with c :: _ => p c | [] => false end.

Definition lex_visible (s : list Z) : lexres :=
  match s with
  | [] => LEof
  | c :: r =>
      if is_digit c then lex_numeric s
      else if c =? 45 then (if head_is is_digit r || head_is (Z.eqb 46) r then lex_numeric s else LErr)
      else if c =? 46 then
        if head_is is_digit r then lex_numeric s
        else if head_is is_upper r then
          match r with
          | u :: r' => let (t, r2) := span_dotted lex_name_char r' in LTok (TDotType (c :: u :: t)) r2
          | [] => LErr
          end
        else LTok TDot r
      else if c =? 47 then
        match span_constant true r with
        | Some (t, r2) => LTok (TConstant (c :: t)) r2
        | None => LErr
        end
      else if is_quote c then
        match string_body c 0 r with
        | Some (t, r2) => LTok (TString t) r2
        | None => LErr
        end
      else if is_lower c then lex_lower s
      else if is_upper c then lex_upper s
      else if c =? 95 then LTok (TVariable [c]) r
      else if c =? 58 then
        if head_is (Z.eqb 45) r then LTok TColonDash (tl r)
        else if head_is is_lower r then
          match lex_lower r with
          | LTok (TName w) r2 => LTok (TName (c :: w)) r2
          | LTok (TKeyword w) r2 => LTok (TName (c :: w)) r2
          | _ =>
              (* ':' followed by b"...": the longest NAME is ":b" *)
              match r with
              | b :: r' => let (t, r2) := span_dotted lex_name_char r' in LTok (TName (c :: b :: t)) r2
              | [] => LErr
              end
          end
        else LTok TColon r
      else if c =? 91 then
        if head_is (Z.eqb 45) r then LTok TBoxMinus (tl r)
        else if head_is (Z.eqb 43) r then LTok TBoxPlus (tl r)
        else LTok TLBracket r
      else if c =? 93 then LTok TRBracket r
      else if c =? 123 then LTok TLBrace r
      else if c =? 125 then LTok TRBrace r
      else if c =? 40 then LTok TLParen r
      else if c =? 41 then LTok TRParen r
      else if c =? 44 then LTok TComma r
      else if c =? 64 then LTok TAt r
      else if c =? 33 then (if head_is (Z.eqb 61) r then LTok TBangEq (tl r) else LTok TBang r)
      else if c =? 61 then LTok TEq r
      else if c =? 60 then
        if head_is (Z.eqb 61) r then LTok TLessEq (tl r)
        else if head_is (Z.eqb 45) r then LTok TDiamondMinus (tl r)
        else if head_is (Z.eqb 43) r then LTok TDiamondPlus (tl r)
        else LTok TLess r
      else if c =? 62 then (if head_is (Z.eqb 61) r then LTok TGreaterEq (tl r) else LTok TGreater r)
      else if c =? 124 then (if head_is (Z.eqb 62) r then LTok TPipeGreater (tl r) else LErr)
      else LErr
  end.

Definition next_token (s : list Z) : lexres := lex_visible (skip_hidden false s).
