(* Model of ast/serde.go over byte lists: Escape (:18, after fix F5: a carriage
   return is written \x0d), Unescape (:96), unescapeCharPrefix (:128), unhex
   (:230), replaceNewlines (:243). Executable definitions only; proofs are in
   EscapeProofs.v.

   Loops that cut a prefix of variable length off the input are written as a
   structural recursion over the list with a counter [skip] of bytes that
   belong to the item just handled (Go: s = rest). *)
From Coq Require Import List ZArith Bool.
From MV Require Export Serde.Utf8.
Import ListNotations.
Open Scope Z_scope.

(* ---- Escape ------------------------------------------------------------- *)
(* the switch at serde.go:23 for one byte < 0x80. [cr] = the case '\r' added by
   fix F5 is present *)
Definition esc_ascii_go (cr is_bytes : bool) (c : Z) : list Z :=
  if c =? 39 then (if is_bytes then esc_x c else [92; 39])
  else if c =? 34 then (if is_bytes then esc_x c else [92; 34])
  else if c =? 10 then (if is_bytes then esc_x c else [92; 110])
  else if c =? 9 then (if is_bytes then esc_x c else [92; 116])
  else if (c =? 13) && cr then esc_x c
  else if c =? 92 then (if is_bytes then esc_x c else [92; 92])
  else [c].

(* isBytes mode: every byte by itself *)
Definition escape_byte (cr : bool) (c : Z) : list Z :=
  if c <? 128 then esc_ascii_go cr true c else esc_x c.
Definition escape_bytes_go (cr : bool) (s : list Z) : list Z := flat_map (escape_byte cr) s.

(* !isBytes mode; None = "invalid UTF-8 encoding" *)
Fixpoint escape_string_go (cr : bool) (skip : nat) (s : list Z) : option (list Z) :=
  match s with
  | [] => Some []
  | c :: r =>
      match skip with
      | S k => escape_string_go cr k r
      | O =>
          if c <? 128 then option_map (app (esc_ascii_go cr false c)) (escape_string_go cr 0 r)
          else match utf8_decode s with
               | None => None
               | Some (rune, n) => option_map (app (esc_rune rune)) (escape_string_go cr (Nat.pred n) r)
               end
      end
  end.

(* Escape(str, isBytes) of the repaired tree, and of the tree before F5 *)
Definition escape_bytes : list Z -> list Z := escape_bytes_go true.
Definition escape_string : list Z -> option (list Z) := escape_string_go true 0.
Definition escape_string_prefix : list Z -> option (list Z) := escape_string_go false 0.

(* ---- Unescape ----------------------------------------------------------- *)
(* unhex (serde.go:230): both letter cases *)
Definition unhex (b : Z) : option Z :=
  if in_range 48 57 b then Some (b - 48)
  else if in_range 97 102 b then Some (b - 87)
  else if in_range 65 70 b then Some (b - 55)
  else None.

(* the loop of the \u{...} case (serde.go:194): [s] starts after the brace,
   [k] = hex digits still allowed (7 at the start: j <= 7), [v] the value so
   far, [n] bytes consumed so far. Some (value, bytes consumed including the
   closing brace). Running off the end of the text is an error (serde.go after
   fix N12a; an index panic before it - the lexer never lets such a text
   through). *)
Fixpoint u_digits (k : nat) (s : list Z) (v : Z) (n : nat) : option (Z * nat) :=
  match s with
  | [] => None
  | c :: r =>
      if c =? 125 then Some (v, S n)
      else match k with
           | O => None
           | S k' => match unhex c with
                     | None => None
                     | Some x => u_digits k' r (v * 16 + x) (S n)
                     end
           end
  end.

(* unescapeCharPrefix: value, encode, number of bytes taken from [s] *)
Inductive ucp := UErr | UOk (value : Z) (encode : bool) (used : nat).

Definition unescape_char_prefix (is_bytes : bool) (s : list Z) : ucp :=
  match s with
  | [] => UErr                      (* never called on the empty string *)
  | c :: r =>
      if 128 <=? c then let (v, n) := decode_rune s in UOk v true n
      else if negb (c =? 92) then UOk c false 1
      else match r with
           | [] => UErr             (* '\' as last character *)
           | e :: r2 =>
               if (e =? 10) || (e =? 110) then UOk 10 false 2
               else if e =? 116 then UOk 9 false 2
               else if e =? 92 then UOk 92 false 2
               else if e =? 39 then UOk 39 false 2
               else if e =? 34 then UOk 34 false 2
               else if e =? 96 then UOk 96 false 2
               else if e =? 120 then
                 match r2 with
                 | h :: l :: _ =>
                     match unhex h, unhex l with
                     | Some hi, Some lo =>
                         let v := hi * 16 + lo in
                         if negb is_bytes && (128 <=? v) then UErr else UOk v false 4
                     | _, _ => UErr
                     end
                 | _ => UErr
                 end
               else if e =? 117 then
                 match r2 with
                 | b :: r3 =>
                     if b =? 123 then
                       match u_digits 7 r3 0 0 with
                       | Some (v, n) => if max_rune <? v then UErr else UOk v true (3 + n)
                       | None => UErr
                       end
                     else UErr
                 | [] => UErr
                 end
               else UErr
           end
  end.

(* replaceNewlines: "\r\n" -> "\n", "\r" -> "\n", left to right *)
Fixpoint replace_newlines (after_cr : bool) (s : list Z) : list Z :=
  match s with
  | [] => []
  | c :: r =>
      if c =? 13 then 10 :: replace_newlines true r
      else if (c =? 10) && after_cr then replace_newlines false r
      else c :: replace_newlines false r
  end.

(* the bytes appended for one unescaped character (serde.go:111) *)
Definition emit (v : Z) (encode : bool) : list Z :=
  if (v <? 128) || negb encode then [v mod 256] else utf8_encode v.

(* the loop at serde.go:105 *)
Fixpoint unescape_loop (is_bytes : bool) (skip : nat) (s : list Z) : option (list Z) :=
  match s with
  | [] => Some []
  | c :: r =>
      match skip with
      | S k => unescape_loop is_bytes k r
      | O =>
          match unescape_char_prefix is_bytes s with
          | UErr => None
          | UOk v enc n => option_map (app (emit v enc)) (unescape_loop is_bytes (Nat.pred n) r)
          end
      end
  end.

Definition unescape (is_bytes : bool) (s : list Z) : option (list Z) :=
  let s' := if is_bytes then s else replace_newlines false s in
  if has_byte 92 s' then unescape_loop is_bytes 0 s' else Some s'.
