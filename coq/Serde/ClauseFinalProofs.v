(* Proofs about ClauseParse.v, part 4: the whole clause, the denotation of the parsed clause,
   the fuel bound - lemma parse_print_clause_lemma behind theorem parse_print_clause_partial of
   Props/C09.v. Built on ClauseProofs.v / ClauseParseProofs.v / ClauseRoundProofs.v. *)
From Coq Require Import List ZArith Bool Lia.
From MV Require Import Term.Hash Term.Const Term.ConstProofs Term.Print Term.PrintProofs Term.EscProofs
  Term.PrintInjProofs Term.MkMap Term.Atom Term.AtomPrintProofs.
From MV Require Import Serde.Escape Serde.Lexer Serde.Parse Serde.ParseTokProofs Serde.ParseConstProofs
  Serde.ParseAtomProofs.
From MV Require Import Serde.Clause Serde.ClauseParse Serde.ClauseTokProofs Serde.ClauseProofs Serde.ClauseParseProofs Serde.ClauseRoundProofs.
Import ListNotations.
Open Scope Z_scope.

Lemma len_comma : length s_comma = 2%nat. Proof. reflexivity. Qed.
Lemma len_pipe : length s_pipe = 4%nat. Proof. reflexivity. Qed.
Lemma len_if : length s_if = 4%nat. Proof. reflexivity. Qed.
Lemma len_eq : length s_eq = 3%nat. Proof. reflexivity. Qed.
Lemma len_neq : length s_neq = 4%nat. Proof. reflexivity. Qed.
Lemma len_do : length s_do = 3%nat. Proof. reflexivity. Qed.
Lemma len_let : length s_let = 4%nat. Proof. reflexivity. Qed.

Section CF.
  Variable parse_float : list Z -> option Z.
  Variables parse_time parse_dur : list Z -> option Z.
  Variables fmt_float fmt_time fmt_dur : Z -> list Z.

  Hypothesis float_rt : forall b, float_special b = false ->
    parse_float (format_float64 fmt_float b) = Some b.
  Hypothesis float_shape : forall b, float_special b = false ->
    exists sign ip fp, format_float64 fmt_float b = sign ++ ip ++ 46 :: fp /\
      (sign = [] \/ sign = [45]) /\ ip <> [] /\ fp <> [] /\
      forallb is_digit ip = true /\ forallb is_digit fp = true.
  Hypothesis time_plain : forall n, int64_ok n = true ->
    ~ In 34 (fmt_time n) /\ ~ In 92 (fmt_time n) /\ ~ In 13 (fmt_time n).
  Hypothesis dur_plain : forall n, int64_ok n = true ->
    ~ In 34 (fmt_dur n) /\ ~ In 92 (fmt_dur n) /\ ~ In 13 (fmt_dur n).
  Hypothesis time_rt : forall n, int64_ok n = true -> parse_time (fmt_time n) = Some n.
  Hypothesis dur_rt : forall n, int64_ok n = true -> parse_dur (fmt_dur n) = Some n.

  Local Notation pt := (parse_term parse_float).
  Local Notation pcall := (print_call fmt_float fmt_time fmt_dur).
  Local Notation pbs := (print_bexps fmt_float fmt_time fmt_dur).
  Local Notation pb := (print_bexp fmt_float fmt_time fmt_dur).
  Local Notation pprem := (print_premise fmt_float fmt_time fmt_dur).
  Local Notation pstmt := (print_stmt fmt_float fmt_time fmt_dur).
  Local Notation pstage := (print_stage fmt_float fmt_time fmt_dur).
  Local Notation pbody := (pbody fmt_float fmt_time fmt_dur).
  Local Notation plets_text := (plets_text fmt_float fmt_time fmt_dur).
  Local Notation pstages_text := (pstages_text fmt_float fmt_time fmt_dur).
  Local Notation pclause := (print_clause fmt_float fmt_time fmt_dur).
  Local Notation bx := (bexp_expr fmt_time fmt_dur).
  Local Notation ev := (eval parse_time parse_dur).
  Local Notation cexpr := (clause_expr fmt_time fmt_dur).
  Local Notation pexpr := (prem_expr fmt_time fmt_dur).
  Local Notation sexpr := (stmt_expr fmt_time fmt_dur).
  Local Notation lfollow := (last_follow).

  Local Notation PCALL := (parse_call parse_float fmt_float fmt_time fmt_dur float_rt float_shape time_plain dur_plain).
  Local Notation PBODY := (parse_body parse_float fmt_float fmt_time fmt_dur float_rt float_shape time_plain dur_plain).
  Local Notation PSTAGES := (parse_stages_ok parse_float fmt_float fmt_time fmt_dur float_rt float_shape time_plain dur_plain).

  (* ---- the end of a body ----------------------------------------------------------- *)
  Definition body_end (ps : list premise) : list Z :=
    if last_ends_with_name ps then s_sp_dot else [46].

  Lemma tok_body_end : forall ps rest, clause_follow rest ->
    next_token (body_end ps ++ rest) = LTok TDot rest.
  Proof.
    intros ps rest F. unfold body_end. destruct (last_ends_with_name ps).
    - change (s_sp_dot ++ rest) with (32 :: 46 :: rest). rewrite next_token_blank. apply tok_dot. exact F.
    - apply tok_dot. exact F.
  Qed.

  Lemma rhs_follow_end : forall r rest, clause_follow rest ->
    match r with
    | BApp _ _ => true
    | BConst c => ctype_eqb (ctype_of c) NameT || leaf_dot_ok c
    | BVar _ => true
    end = true ->
    rhs_follow r ((if match r with BConst c => ctype_eqb (ctype_of c) NameT | _ => false end then s_sp_dot else [46]) ++ rest).
  Proof.
    intros [c|x|fn args] rest F E; cbn [rhs_follow]; [| |exact I].
    - destruct (ctype_eqb (ctype_of c) NameT).
      + left. exists 32, (46 :: rest). split; [reflexivity|right; right; reflexivity].
      + right. cbn [orb] in E. split; [exists rest; split; [reflexivity|exact F]|exact E].
    - right. exists rest. split; [reflexivity|exact F].
  Qed.

  Lemma last_follow_end : forall ps rest, clause_follow rest -> last_end_ok ps = true ->
    lfollow ps (body_end ps ++ rest).
  Proof.
    intros ps rest F. unfold body_end. induction ps as [|p ps IH]; intro E; [exact I|].
    cbn [last_end_ok] in E. cbn [last_follow last_ends_with_name]. destruct ps as [|q ps]; [|apply IH; exact E].
    destruct p as [a|a|l r|l r]; cbn [ends_with_name prem_follow end_ok] in *.
    - unfold lit_end. cbn [app]. rewrite (tok_dot rest F). split; [discriminate|reflexivity].
    - exact I.
    - apply rhs_follow_end; [exact F|exact E].
    - apply rhs_follow_end; [exact F|exact E].
  Qed.

  Lemma last_follow_pipe : forall ps Y, lfollow ps (s_pipe ++ Y).
  Proof.
    induction ps as [|p ps IH]; intro Y; [exact I|]. cbn [last_follow]. destruct ps as [|q ps]; [|apply IH].
    destruct p as [a|a|l r|l r]; cbn [prem_follow].
    - unfold lit_end. rewrite tok_pipe. split; [discriminate|reflexivity].
    - exact I.
    - destruct r; cbn [rhs_follow]; try exact I; left; exists 32, (124 :: 62 :: 32 :: Y); (split; [reflexivity|right; right; reflexivity]).
    - destruct r; cbn [rhs_follow]; try exact I; left; exists 32, (124 :: 62 :: 32 :: Y); (split; [reflexivity|right; right; reflexivity]).
  Qed.

  Lemma not_comma_dot : forall X rest, next_token X = LTok TDot rest -> not_comma X /\ not_pipe X.
  Proof. intros X rest T. unfold not_comma, not_pipe. rewrite T. split; exact I. Qed.

  (* ---- the clause ------------------------------------------------------------------ *)
  Lemma parse_print_clause_need : forall c f rest,
    clause_ok c = true -> clause_follow rest -> (need_clause c <= f)%nat ->
    parse_clause parse_float f (pclause c ++ rest) = ROk (cexpr c) rest.
  Proof.
    intros [[hs ha] prem trans] f rest O F N.
    unfold clause_ok in O. cbn [cl_head cl_prem cl_trans] in O. apply andb_true_iff in O. destruct O as [Oh O].
    unfold catom_ok, sym_ok in Oh. cbn [ca_sym ca_args] in Oh. apply andb_true_iff in Oh. destruct Oh as [Os Oa].
    apply andb_true_iff in Os. destruct Os as [Ps Nf]. apply negb_true_iff in Nf.
    unfold need_clause in N. cbn [cl_head cl_prem cl_trans ca_args] in N.
    unfold print_clause, print_clause_gen, clause_expr, print_catom. cbn [cl_head cl_prem cl_trans ca_sym ca_args].
    unfold parse_clause.
    destruct prem as [ps|].
    - apply andb_true_iff in O. destruct O as [O Ot].
      apply andb_true_iff in O. destruct O as [Ne Op]. apply negb_true_iff in Ne.
      assert (NE : ps <> []) by (intro; subst ps; discriminate Ne).
      pose proof (last_end_ok_all ps) as Oe.
      destruct trans as [|st t].
      + (* no transform *)
        cbn [andb].
        fold (body_end ps). rewrite <- !app_assoc.
        rewrite (PCALL hs ha f _ Ps Oa) by lia. cbn [as_atom]. rewrite Nf.
        rewrite tok_if, plits_blank.
        pose proof (tok_body_end ps rest F) as TD. destruct (not_comma_dot _ _ TD) as [NC NP].
        fold (pbody ps).
        rewrite (PBODY ps f (body_end ps ++ rest) NE Op (last_follow_end ps rest F Oe) NC) by lia.
        destruct f as [|f]; [lia|]. rewrite (pstages_end parse_float f _ NP), TD. reflexivity.
      + (* transform *)
        cbn [andb]. rewrite <- !app_assoc.
        rewrite (PCALL hs ha f _ Ps Oa) by lia. cbn [as_atom]. rewrite Nf.
        rewrite tok_if, plits_blank. fold (pbody ps).
        rewrite (PBODY ps f _ NE Op (last_follow_pipe ps _) (not_comma_pipe _)) by lia.
        rewrite (app_assoc s_pipe), (ptransform_text fmt_float fmt_time fmt_dur (st :: t)) by discriminate.
        pose proof (tok_dot rest F) as TD. destruct (not_comma_dot _ _ TD) as [NC NP].
        change ([46] ++ rest) with (46 :: rest).
        rewrite (PSTAGES (st :: t) f (46 :: rest) Ot NC NP) by lia. rewrite TD. reflexivity.
    - (* a fact *)
      destruct trans as [|st t]; [|discriminate O]. rewrite <- app_assoc.
      rewrite (PCALL hs ha f _ Ps Oa) by lia. cbn [as_atom]. rewrite Nf.
      change ([46] ++ rest) with (46 :: rest). rewrite (tok_dot rest F). reflexivity.
  Qed.

  (* ---- the parsed clause denotes the printed one ----------------------------------- *)
  Lemma premise_denotes_expr : forall p, premise_ok p = true -> premise_denotes ev p (pexpr p).
  Proof.
    intros [a|a|l r|l r] O; cbn [premise_ok premise_denotes prem_expr] in *.
    - unfold catom_ok in O. apply andb_true_iff in O. destruct O as [_ Oa].
      split; [reflexivity|apply (bexps_denote_expr parse_time parse_dur fmt_time fmt_dur time_rt dur_rt); exact Oa].
    - unfold catom_ok in O. apply andb_true_iff in O. destruct O as [_ Oa].
      split; [reflexivity|apply (bexps_denote_expr parse_time parse_dur fmt_time fmt_dur time_rt dur_rt); exact Oa].
    - apply andb_true_iff in O. destruct O as [Ol Or].
      split; apply (bexp_denotes_expr parse_time parse_dur fmt_time fmt_dur time_rt dur_rt); assumption.
    - apply andb_true_iff in O. destruct O as [Ol Or].
      split; apply (bexp_denotes_expr parse_time parse_dur fmt_time fmt_dur time_rt dur_rt); assumption.
  Qed.

  Lemma stmt_denotes_expr : forall b s, stmt_ok b s = true -> stmt_denotes ev s (sexpr s).
  Proof.
    intros b s O. unfold stmt_ok in O. apply andb_true_iff in O. destruct O as [O _].
    apply andb_true_iff in O. destruct O as [_ Oa]. unfold stmt_denotes, stmt_expr. cbn [ps_var ps_fn ps_args].
    split; [reflexivity|]. split; [reflexivity|].
    apply (bexps_denote_expr parse_time parse_dur fmt_time fmt_dur time_rt dur_rt); exact Oa.
  Qed.

  Lemma stage_denotes_expr : forall st, stage_ok st = true -> Forall2 (stmt_denotes ev) st (map sexpr st).
  Proof.
    intros [|s l] O; [discriminate O|]. cbn [stage_ok] in O. apply andb_true_iff in O. destruct O as [Os Ol].
    cbn [map]. constructor; [exact (stmt_denotes_expr true s Os)|].
    induction l as [|s2 l IH]; [constructor|]. cbn [forallb] in Ol. apply andb_true_iff in Ol. destruct Ol as [O1 O2].
    cbn [map]. constructor; [exact (stmt_denotes_expr false s2 O1)|apply IH; exact O2].
  Qed.

  Lemma clause_denotes_expr : forall c, clause_ok c = true -> clause_denotes ev c (cexpr c).
  Proof.
    intros [[hs ha] prem trans] O.
    unfold clause_ok in O. cbn [cl_head cl_prem cl_trans] in O. apply andb_true_iff in O. destruct O as [Oh O].
    unfold catom_ok in Oh. cbn [ca_sym ca_args] in Oh. apply andb_true_iff in Oh. destruct Oh as [_ Oa].
    unfold clause_denotes, clause_expr. cbn [cl_head cl_prem cl_trans ca_sym ca_args pc_sym pc_args pc_prem pc_trans].
    split; [reflexivity|]. split; [apply (bexps_denote_expr parse_time parse_dur fmt_time fmt_dur time_rt dur_rt); exact Oa|].
    destruct prem as [ps|]; cbn [option_map].
    - apply andb_true_iff in O. destruct O as [O Ot].
      apply andb_true_iff in O. destruct O as [_ Op]. split.
      + clear Ot. induction ps as [|p ps IH]; [constructor|]. cbn [forallb] in Op. apply andb_true_iff in Op.
        destruct Op as [O1 O2]. cbn [map]. constructor; [apply premise_denotes_expr; exact O1|apply IH; exact O2].
      + clear Op. induction trans as [|st t IH]; [constructor|]. cbn [forallb] in Ot. apply andb_true_iff in Ot.
        destruct Ot as [O1 O2]. cbn [map]. constructor; [apply stage_denotes_expr; exact O1|apply IH; exact O2].
    - destruct trans as [|st t]; [|discriminate O]. split; [exact I|constructor].
  Qed.

  (* ---- the fuel of parse_clause_text suffices ---------------------------------------- *)
  Local Notation NCALL := (need_call_le fmt_float fmt_time fmt_dur float_shape).
  Local Notation NBEXP := (need_bexp_le fmt_float fmt_time fmt_dur float_shape).

  Lemma need_lit_le : forall p, premise_ok p = true -> (need_lit p <= 2 * length (pprem p) + 2)%nat.
  Proof.
    intros [a|a|l r|l r] O; cbn [premise_ok need_lit print_premise] in *.
    - unfold catom_ok in O. apply andb_true_iff in O. destruct O as [_ Oa]. exact (NCALL (ca_sym a) (ca_args a) Oa).
    - unfold catom_ok in O. apply andb_true_iff in O. destruct O as [_ Oa].
      pose proof (NCALL (ca_sym a) (ca_args a) Oa) as A. unfold print_catom. cbn [length]. lia.
    - apply andb_true_iff in O. destruct O as [Ol Or]. pose proof (NBEXP l Ol) as A. pose proof (NBEXP r Or) as B.
      rewrite !app_length, len_eq. lia.
    - apply andb_true_iff in O. destruct O as [Ol Or]. pose proof (NBEXP l Ol) as A. pose proof (NBEXP r Or) as B.
      rewrite !app_length, len_neq. lia.
  Qed.

  Lemma need_lits_le : forall ps, forallb premise_ok ps = true -> (need_lits ps <= 2 * length (pbody ps) + 3)%nat.
  Proof.
    induction ps as [|p ps IH]; intro O; [cbn [need_lits]; lia|].
    cbn [forallb] in O. apply andb_true_iff in O. destruct O as [Op Ops].
    pose proof (need_lit_le p Op) as A. specialize (IH Ops). cbn [need_lits].
    destruct ps as [|q ps].
    - unfold ClauseRoundProofs.pbody in *. cbn [map join need_lits] in *. lia.
    - unfold ClauseRoundProofs.pbody in *. cbn [map] in *. rewrite join_cons2, !app_length, len_comma. lia.
  Qed.

  Lemma need_stmt_le : forall b s, stmt_ok b s = true -> (need_stmt s <= 2 * length (pstmt s) + 2)%nat.
  Proof.
    intros b [v fn args] O. unfold stmt_ok in O. cbn [ts_var ts_fn ts_args] in O.
    apply andb_true_iff in O. destruct O as [O _]. apply andb_true_iff in O. destruct O as [_ Oa].
    pose proof (NCALL fn args Oa) as A. unfold need_stmt, print_stmt. cbn [ts_var ts_fn ts_args].
    destruct v as [v|]; rewrite !app_length; lia.
  Qed.

  Lemma need_lets_le : forall l, forallb (stmt_ok false) l = true -> (need_lets l <= 2 * length (plets_text l) + 3)%nat.
  Proof.
    induction l as [|s l IH]; intro O; [cbn [need_lets]; lia|].
    cbn [forallb] in O. apply andb_true_iff in O. destruct O as [Os Ol].
    pose proof (need_stmt_le false s Os) as A. specialize (IH Ol). cbn [need_lets].
    unfold ClauseRoundProofs.plets_text in *. cbn [map flat_map]. rewrite !app_length, len_comma. lia.
  Qed.

  Lemma need_stage_le : forall st, stage_ok st = true -> (need_stage st <= 2 * length (pstage st) + 3)%nat.
  Proof.
    intros [|s l] O; [discriminate O|]. cbn [stage_ok] in O. apply andb_true_iff in O. destruct O as [Os Ol].
    pose proof (need_stmt_le true s Os) as A. pose proof (need_lets_le l Ol) as B.
    rewrite (pstage_cons fmt_float fmt_time fmt_dur), app_length. cbn [need_stage]. lia.
  Qed.

  Lemma need_stages_le : forall t, forallb stage_ok t = true -> (need_stages t <= 2 * length (pstages_text t) + 3)%nat.
  Proof.
    induction t as [|st t IH]; intro O; [cbn [need_stages]; lia|].
    cbn [forallb] in O. apply andb_true_iff in O. destruct O as [Os Ot].
    pose proof (need_stage_le st Os) as A. specialize (IH Ot). cbn [need_stages].
    unfold ClauseRoundProofs.pstages_text in *. cbn [map flat_map]. rewrite !app_length, len_pipe. lia.
  Qed.

  Lemma need_clause_fuel : forall c rest, clause_ok c = true ->
    (need_clause c <= fuel_for (pclause c ++ rest))%nat.
  Proof.
    intros [[hs ha] prem trans] rest O.
    unfold clause_ok in O. cbn [cl_head cl_prem cl_trans] in O. apply andb_true_iff in O. destruct O as [Oh O].
    unfold catom_ok in Oh. cbn [ca_sym ca_args] in Oh. apply andb_true_iff in Oh. destruct Oh as [_ Oa].
    pose proof (NCALL hs ha Oa) as H.
    unfold need_clause, fuel_for, print_clause, print_clause_gen, print_catom. cbn [cl_head cl_prem cl_trans ca_sym ca_args].
    destruct prem as [ps|].
    - apply andb_true_iff in O. destruct O as [O Ot].
      apply andb_true_iff in O. destruct O as [_ Op].
      pose proof (need_lits_le ps Op) as L. pose proof (need_stages_le trans Ot) as T.
      fold (pbody ps).
      destruct trans as [|st t].
      + cbn [need_stages andb]. rewrite !app_length, len_if.
        assert (1 <= length (if last_ends_with_name ps then s_sp_dot else [46%Z]))%nat by (destruct (last_ends_with_name ps); [change (length s_sp_dot) with 2%nat|cbn [length]]; lia).
        lia.
      + cbn [andb]. rewrite <- (ptransform_text fmt_float fmt_time fmt_dur (st :: t)) in T by discriminate.
        rewrite !app_length in T. rewrite !app_length, len_if. cbn [length]. lia.
    - rewrite !app_length. cbn [length]. lia.
  Qed.

  Lemma parse_print_clause_lemma : forall c rest f,
    clause_ok c = true -> clause_follow rest -> (fuel_for (pclause c ++ rest) <= f)%nat ->
    exists q, parse_clause parse_float f (pclause c ++ rest) = ROk q rest /\ clause_denotes ev c q.
  Proof.
    intros c rest f O F N. exists (cexpr c). split.
    - apply parse_print_clause_need; [exact O|exact F|]. pose proof (need_clause_fuel c rest O). lia.
    - apply clause_denotes_expr. exact O.
  Qed.
End CF.
