(* The lazy view SimpleColumnStore.GetFacts over a written file, and admissibility
   of the store in the order WriteTo emits it.

   locate_answer is the offset lemma: when the loop of GetFacts (:131-149) has
   passed the header entries of the predicates St1, the number of lines it has
   decided to skip is 1 + n + sum over St1 of count*arity = the lines of the
   header plus the column blocks of St1, so the scanner stands at the first line
   of the block of the queried predicate; read_pred_ok then returns exactly the
   matching rows. *)
From Coq Require Import List ZArith Bool Arith Lia Permutation.
From MV Require Import Serde.SimpleColumn Serde.SimpleColumnProofs.
Import ListNotations.
Open Scope Z_scope.

Section Lazy.
  Variable const : Type.
  Variable const_eqb : const -> const -> bool.
  Variable print : const -> bytes.
  Variable parse : bytes -> option const.
  Variable fhash : bytes -> list const -> Z.

  Notation row := (list const).
  Notation pstore := (pstore const).
  Notation fact := (fact const).
  Notation pattern := (pattern const).
  Notation pred_ok := (pred_ok const print parse).
  Notation args_match := (args_match const const_eqb).
  Notation count := (count const).
  Notation col_lines := (col_lines const print).
  Notation body_lines := (body_lines const print).
  Notation header := (header const).
  Notation ordered := (ordered print fhash).
  Notation entry := (fun e : psym * list row => (fst e, count (snd e))).

  (* ------------------- admissibility does not depend on the order of listing *)
  Lemma pred_ok_perm : forall p (r1 r2 : list row),
    Permutation r1 r2 -> pred_ok (p, r1) -> pred_ok (p, r2).
  Proof.
    intros p r1 r2 P (H1 & H2 & H3 & H4 & H5 & H6 & H7 & H8). cbn [fst snd] in *.
    assert (L : length r2 = length r1) by (symmetry; apply Permutation_length; exact P).
    unfold SimpleColumnProofs.pred_ok, SimpleColumn.count, SimpleColumn.row in *. cbn [fst snd].
    rewrite L.
    refine (conj H1 (conj H2 (conj H3 (conj H4 (conj H5 (conj H6 (conj _ H8))))))).
    intros r Hr. apply H7. eapply Permutation_in; [apply Permutation_sym; exact P | exact Hr].
  Qed.

  Lemma ordered_pred_ok : forall det (St : pstore),
    Forall pred_ok St -> Forall pred_ok (ordered det St).
  Proof.
    intros [|] St F; [|exact F]. unfold SimpleColumn.ordered.
    rewrite Forall_forall in F |- *. intros e He.
    apply in_map_iff in He. destruct He as [[p rows] [<- He]]. cbn [fst snd].
    apply pred_ok_perm with (r1 := rows); [apply Permutation_sym, isort_perm|].
    apply F. eapply Permutation_in; [apply isort_perm | exact He].
  Qed.

  Lemma ordered_fst_perm : forall det (St : pstore),
    Permutation (map fst (ordered det St)) (map fst St).
  Proof.
    intros [|] St; [|apply Permutation_refl]. unfold SimpleColumn.ordered.
    rewrite map_map. cbn [fst]. apply Permutation_map, isort_perm.
  Qed.

  Lemma ordered_nodup : forall det (St : pstore),
    NoDup (map fst St) -> NoDup (map fst (ordered det St)).
  Proof.
    intros det St N. eapply Permutation_NoDup; [apply Permutation_sym, ordered_fst_perm | exact N].
  Qed.

  (* the facts written are the facts listed, each as often as listed *)
  Lemma facts_of_perm : forall (S1 S2 : pstore),
    Permutation S1 S2 -> Permutation (facts_of S1) (facts_of S2).
  Proof.
    intros S1 S2 P. unfold facts_of. induction P as [|e l l' P IH|e e' l|l l' l'' P1 IH1 P2 IH2].
    - apply Permutation_refl.
    - cbn [flat_map]. apply Permutation_app_head. exact IH.
    - cbn [flat_map]. rewrite !app_assoc. apply Permutation_app_tail, Permutation_app_comm.
    - eapply Permutation_trans; eassumption.
  Qed.

  Lemma facts_of_sort_rows : forall l : pstore,
    Permutation
      (facts_of (map (fun e : psym * list row =>
                        (fst e, isort (fact_ltb const print fhash (fst (fst e))) (snd e))) l))
      (facts_of l).
  Proof.
    unfold facts_of. induction l as [|e l IH]; [apply Permutation_refl|].
    cbn [map flat_map fst snd]. apply Permutation_app; [|exact IH].
    apply Permutation_map, isort_perm.
  Qed.

  Lemma ordered_facts_perm : forall det (St : pstore),
    Permutation (facts_of (ordered det St)) (facts_of St).
  Proof.
    intros [|] St; [|apply Permutation_refl]. unfold SimpleColumn.ordered.
    eapply Permutation_trans; [apply facts_of_sort_rows | apply facts_of_perm, isort_perm].
  Qed.

  (* ----------------------------------------------------------- small pieces *)
  Lemma skip_lines_app : forall (pre rest : list bytes),
    skip_lines (Z.of_nat (length pre)) (pre ++ rest) = Some rest.
  Proof.
    intros pre rest. unfold skip_lines. rewrite app_length.
    destruct (Z.of_nat (length pre + length rest) <? Z.of_nat (length pre)) eqn:E;
      [apply Z.ltb_lt in E; lia|].
    rewrite Nat2Z.id. f_equal. apply skipn_app_exact.
  Qed.

  Lemma read_columns_zero : forall fs ls,
    read_columns const const_eqb parse fs 0 [] ls = Some ([], ls).
  Proof. induction fs as [|f fs IH]; intro ls; [reflexivity|]. cbn [read_columns firstn skipn read_column]. apply IH. Qed.

  (* numFacts = 0: readPred consumes nothing and calls back nothing *)
  Lemma read_pred_zero : forall ar fs ls,
    length fs = ar -> read_pred const const_eqb parse ar 0 fs ls = Some ([], ls).
  Proof.
    intros ar fs ls H. unfold read_pred. rewrite H, Nat.eqb_refl. cbn [negb].
    rewrite Z.mul_0_l.
    destruct (Z.of_nat (length ls) <? 0) eqn:E; [apply Z.ltb_lt in E; lia|].
    change (Z.to_nat 0) with O. cbn [repeat]. rewrite read_columns_zero. reflexivity.
  Qed.

  Lemma filter_block_other : forall (q : pattern) p (rows : list row),
    psym_eqb p (fst q) = false -> filter (matches const_eqb q) (map (fun r => (p, r)) rows) = [].
  Proof.
    intros q p rows E. induction rows as [|r rows IH]; [reflexivity|].
    cbn [map filter]. unfold matches at 1. cbn [fst snd]. rewrite E. cbn [andb]. exact IH.
  Qed.

  Lemma filter_block_same : forall (q : pattern) (rows : list row),
    filter (matches const_eqb q) (map (fun r => (fst q, r)) rows)
    = map (fun r => (fst q, r)) (filter (args_match (snd q)) rows).
  Proof.
    intros q rows. induction rows as [|r rows IH]; [reflexivity|].
    cbn [map filter]. unfold matches at 1. cbn [fst snd].
    rewrite (proj2 (psym_eqb_eq (fst q) (fst q)) eq_refl). cbn [andb].
    destruct (args_match (snd q) r); cbn [map]; rewrite IH; reflexivity.
  Qed.

  Lemma facts_of_cons : forall (e : psym * list row) (St : pstore),
    facts_of (e :: St) = map (fun r => (fst e, r)) (snd e) ++ facts_of St.
  Proof. reflexivity. Qed.

  Lemma filter_facts_other : forall (q : pattern) (St : pstore),
    ~ In (fst q) (map fst St) -> filter (matches const_eqb q) (facts_of St) = [].
  Proof.
    intros q. induction St as [|e St IH]; intro H; [reflexivity|].
    rewrite facts_of_cons, filter_app. unfold SimpleColumn.fact, SimpleColumn.row in *.
    rewrite IH by (intro F; apply H; right; exact F).
    rewrite filter_block_other; [reflexivity|].
    destruct (psym_eqb (fst e) (fst q)) eqn:E; [|reflexivity].
    apply psym_eqb_eq in E. exfalso. apply H. left. exact E.
  Qed.

  Lemma filter_cons_same : forall (q : pattern) (rows : list row) (St : pstore),
    ~ In (fst q) (map fst St) ->
    filter (matches const_eqb q) (facts_of ((fst q, rows) :: St))
    = map (fun r => (fst q, r)) (filter (args_match (snd q)) rows).
  Proof.
    intros q rows St H. rewrite facts_of_cons, filter_app. cbn [fst snd].
    pose proof (filter_block_same q rows) as X. pose proof (filter_facts_other q St H) as Y.
    unfold SimpleColumn.fact, SimpleColumn.row in *. rewrite X, Y. apply app_nil_r.
  Qed.

  Lemma filter_cons_other : forall (q : pattern) p (rows : list row) (St : pstore),
    psym_eqb p (fst q) = false ->
    filter (matches const_eqb q) (facts_of ((p, rows) :: St)) = filter (matches const_eqb q) (facts_of St).
  Proof.
    intros q p rows St H. rewrite facts_of_cons, filter_app. cbn [fst snd].
    pose proof (filter_block_other q p rows H) as X.
    unfold SimpleColumn.fact, SimpleColumn.row in *. rewrite X. reflexivity.
  Qed.

  Lemma args_match_nil : forall r, args_match [] r = true.
  Proof. intros [|c r]; reflexivity. Qed.

  (* -------------------------------------------------------- the offset lemma *)
  (* what GetFacts does once the loop over the header has ended with [loc] *)
  Definition lz_answer (q : pattern) (loc : located) (lines : list bytes) : option (list fact) :=
    match loc with
    | LZero present => Some (if present then [(fst q, [])] else [])
    | LEmpty => Some []
    | LFound nf k =>
        match skip_lines k lines with
        | None => None
        | Some ls =>
            match read_pred const const_eqb parse (snd (fst q)) nf (snd q) ls with
            | Some (rows, _) => Some (map (fun a => (fst q, a)) rows)
            | None => None
            end
        end
    | LAbsent k =>
        match skip_lines k lines with
        | None => None
        | Some ls =>
            match read_pred const const_eqb parse (snd (fst q)) 0 (snd q) ls with
            | Some (rows, _) => Some (map (fun a => (fst q, a)) rows)
            | None => None
            end
        end
    end.

  Lemma lz_get_facts_answer : forall s q,
    lz_get_facts const const_eqb parse s q
    = lz_answer q (locate (fst q) (lz_preds s) (1 + Z.of_nat (length (lz_preds s)))) (scan_lines (lz_data s)).
  Proof. reflexivity. Qed.

  Lemma locate_answer : forall (q : pattern),
    length (snd q) = snd (fst q) ->
    forall (St : pstore) (pre : list bytes),
      Forall pred_ok St -> NoDup (map fst St) ->
      lz_answer q (locate (fst q) (map entry St) (Z.of_nat (length pre))) (pre ++ body_lines St)
      = Some (filter (matches const_eqb q) (facts_of St)).
  Proof.
    intros [pred fs] Hq. cbn [fst snd] in Hq.
    induction St as [|e St IH]; intros pre F N.
    - cbn [map locate lz_answer fst snd facts_of flat_map filter].
      change (SimpleColumnProofs.body_lines const print []) with (@nil bytes).
      rewrite skip_lines_app, (read_pred_zero _ _ _ Hq). reflexivity.
    - inversion F as [|? ? He F']; subst. cbn [map fst] in N. inversion N as [|? ? Ne N']; subst.
      destruct e as [[s a] rows].
      pose proof He as (_ & _ & _ & _ & _ & _ & Hrows & Hzero). cbn [fst snd] in *.
      cbn [map locate fst snd].
      destruct (psym_eqb (s, a) pred) eqn:E.
      + apply psym_eqb_eq in E. subst pred. cbn [snd] in Hq.
        pose proof (filter_cons_same ((s, a), fs) rows St Ne) as X. cbn [fst snd] in X.
        refine (eq_trans _ (f_equal Some (eq_sym X))). clear X.
        destruct a as [|k].
        * (* zero arity: one fact or none *)
          destruct fs; [|discriminate]. cbn [lz_answer fst].
          specialize (Hzero eq_refl).
          destruct rows as [|r [|r' rows]].
          -- reflexivity.
          -- destruct (Hrows r (or_introl eq_refl)) as [Hl _]. destruct r; [|discriminate]. reflexivity.
          -- simpl in Hzero. lia.
        * destruct rows as [|r rows].
          -- reflexivity.
          -- destruct (count (r :: rows) =? 0) eqn:Ec;
               [apply Z.eqb_eq in Ec; unfold SimpleColumn.count in Ec; simpl length in Ec; lia|].
             cbn [lz_answer fst snd].
             change (SimpleColumnProofs.body_lines const print (((s, S k), r :: rows) :: St))
               with (col_lines (r :: rows) 0 (S k) ++ body_lines St).
             rewrite skip_lines_app.
             rewrite (read_pred_ok const const_eqb print parse (S k) fs (r :: rows) (body_lines St) Hq Hrows).
             reflexivity.
      + pose proof (filter_cons_other (pred, fs) (s, a) rows St E) as X. cbn [fst snd] in X.
        refine (eq_trans _ (f_equal Some (eq_sym X))). clear X.
        destruct a as [|k].
        * change (SimpleColumnProofs.body_lines const print (((s, O), rows) :: St)) with (body_lines St).
          apply IH; assumption.
        * change (SimpleColumnProofs.body_lines const print (((s, S k), rows) :: St))
            with (col_lines rows 0 (S k) ++ body_lines St).
          rewrite app_assoc.
          replace (Z.of_nat (length pre) + count rows * Z.of_nat (S k))
            with (Z.of_nat (length (pre ++ col_lines rows 0 (S k)))).
          -- apply IH; assumption.
          -- rewrite app_length, col_lines_length. unfold SimpleColumn.count.
             rewrite Nat2Z.inj_add, Nat2Z.inj_mul. f_equal. apply Z.mul_comm.
  Qed.

  (* ------------------------------------------------------------ whole files *)
  Theorem lazy_get_facts_exact_all : forall (St : pstore) (det : bool) (q : pattern),
    Forall pred_ok St -> Z.of_nat (length St) <= max_num_preds ->
    NoDup (map fst St) -> length (snd q) = snd (fst q) ->
    exists ls lz,
      write const print fhash fixed det St = Some ls /\
      lz_new (unlines ls) = Some lz /\
      lz_get_facts const const_eqb parse lz q
      = Some (filter (matches const_eqb q) (facts_of (ordered det St))).
  Proof.
    intros St det q F L N Hq.
    set (St' := ordered det St).
    assert (F' : Forall pred_ok St') by (apply ordered_pred_ok; exact F).
    assert (L' : Z.of_nat (length St') <= max_num_preds) by (unfold St'; rewrite ordered_length; exact L).
    assert (N' : NoDup (map fst St')) by (apply ordered_nodup; exact N).
    exists (header St' ++ body_lines St').
    exists {| lz_preds := map entry St'; lz_data := unlines (header St' ++ body_lines St') |}.
    split; [rewrite write_ordered; apply (write_listing const print parse fhash St' F' L')|].
    pose proof (scan_unlines _ (file_lines_ok const print parse St' F' L')) as SC.
    split.
    - unfold lz_new. rewrite SC, (read_header_ok const print parse St' (body_lines St') F' L'). reflexivity.
    - rewrite lz_get_facts_answer. cbn [lz_preds lz_data]. rewrite SC, map_length.
      pose proof (locate_answer q Hq St' (header St') F' N') as A.
      assert (HL : Z.of_nat (length (header St')) = 1 + Z.of_nat (length St')).
      { unfold SimpleColumn.header. cbn [length]. rewrite map_length. lia. }
      rewrite HL in A. exact A.
  Qed.

  (* the eager round trip with admissibility stated on the store itself *)
  Theorem read_write_exact_store : forall (St : pstore) det,
    Forall pred_ok St -> Z.of_nat (length St) <= max_num_preds ->
    exists ls, write const print fhash fixed det St = Some ls /\
               read_into const const_eqb parse fixed (scan_lines (unlines ls))
               = Some (facts_of (ordered det St)).
  Proof.
    intros St det F L. apply read_write_exact_all; [apply ordered_pred_ok; exact F | exact L].
  Qed.
End Lazy.
