# /verif build: Coq development + Go correspondence harness. Everything offline.
SHELL := /bin/bash
export GOFLAGS := -mod=mod
export GOPROXY := off
COQ_TIMEOUT ?= 3000
# experiments (seeded changes, fix development) can point the harness at a scratch
# worktree instead of /repo: VERIF_REPO=/tmp/wt bin/check Cxx ; registered commands use /repo
VERIF_REPO ?= /repo
SFX := $(shell echo $(VERIF_REPO) | md5sum | cut -c1-8)
JOBS ?= 16
# address-space cap per coqc process (KB): a runaway elaboration must fail, not eat the machine
COQ_MEM_KB ?= 12000000

.PHONY: setup coq coq-only coqproject harness harness-all clean check-clean coqchk

# setup keeps going past a failing file or runner: every check rebuilds (and
# reports on) exactly what it needs, so one broken property must not take the
# others down with it
setup: check-clean
	-$(MAKE) --no-print-directory coq MKFLAGS=-k
	-$(MAKE) --no-print-directory -k harness-all
	@echo "setup done"

# _CoqProject is regenerated from the files on disk so that adding a .v file
# needs no edit of a shared file.
coqproject:
	@mkdir -p build
	@flock build/coqproject.lock bin/coqproject.sh

# all Coq builds are serialised by a lock so that parallel checks (or people)
# never compile the same file twice at once
coq: coqproject
	@mkdir -p build
	cd coq && ulimit -v $(COQ_MEM_KB) && flock ../build/coq.lock timeout $(COQ_TIMEOUT) $(MAKE) $(MKFLAGS) -f Makefile.coq -j$(JOBS) --no-print-directory

# build selected .vo targets only: make coq-only T="Props/C13.vo Run/C13.vo"
coq-only: coqproject
	@mkdir -p build
	cd coq && ulimit -v $(COQ_MEM_KB) && flock ../build/coq.lock timeout $(COQ_TIMEOUT) $(MAKE) -f Makefile.coq -j$(JOBS) --no-print-directory $(T)

# one binary per property (harness/<pid>/), so a broken runner of one property
# cannot break the build of another: make harness P=c13
harness:
	@mkdir -p build
	@cmp -s $(VERIF_REPO)/go.sum harness/go.sum || cp $(VERIF_REPO)/go.sum harness/go.sum
ifeq ($(VERIF_REPO),/repo)
	cd harness && flock ../build/go.lock go build -tags verif -o ../build/harness_$(P) ./$(P)
else
	@sed 's|=> /repo|=> $(VERIF_REPO)|' harness/go.mod > harness/alt_$(SFX).mod && cp harness/go.sum harness/alt_$(SFX).sum
	cd harness && flock ../build/go.lock go build -modfile=alt_$(SFX).mod -tags verif -o ../build/harness_$(P)_$(SFX) ./$(P); r=$$?; rm -f alt_$(SFX).mod alt_$(SFX).sum; exit $$r
endif

harness-all:
	@rc=0; for d in harness/c[0-9]*; do $(MAKE) --no-print-directory harness P=$$(basename $$d) || rc=1; done; exit $$rc

# no escape hatches anywhere in the development
check-clean:
	@! grep -rnE '\b(Admitted|admit|Axiom|Parameter|Conjecture|Admit Obligations)\b|Unset Guard|bypass_check|type-in-type|impredicative-set' coq --include='*.v' \
	  || { echo "forbidden construct in coq/"; exit 1; }

coqchk: coq
	cd coq && timeout 7200 coqchk -silent -o -Q . MV $(M)

clean:
	rm -rf build coq/Makefile.coq coq/Makefile.coq.conf coq/_CoqProject coq/.Makefile.coq.d
	find coq \( -name '*.vo' -o -name '*.vok' -o -name '*.vos' -o -name '*.glob' -o -name '*.aux' \) -delete
