# /verif build: Coq development + Go correspondence harness. Everything offline.
SHELL := /bin/bash
export GOFLAGS := -mod=mod
export GOPROXY := off
COQ_TIMEOUT ?= 3000
JOBS ?= 16

.PHONY: setup coq coqproject harness clean check-clean coqchk

setup: check-clean coq harness

# _CoqProject is regenerated from the files on disk so that adding a .v file
# needs no edit of a shared file.
coqproject:
	@cd coq && { echo "-Q . MV"; echo "-arg -w -arg -notation-overridden,-deprecated-hint-without-locality,-deprecated-instance-without-locality,-ambiguous-paths,-undeclared-scope"; find . -name '*.v' ! -path './build/*' | sed 's|^\./||' | LC_ALL=C sort; } > _CoqProject.new \
	 && { cmp -s _CoqProject.new _CoqProject || mv _CoqProject.new _CoqProject; rm -f _CoqProject.new; } \
	 && { [ Makefile.coq -nt _CoqProject ] || coq_makefile -f _CoqProject -o Makefile.coq >/dev/null; }

coq: coqproject
	cd coq && timeout $(COQ_TIMEOUT) $(MAKE) -f Makefile.coq -j$(JOBS) --no-print-directory

# build selected .vo targets only: make coq-only T="Props/C13.vo Run/C13.vo"
coq-only: coqproject
	cd coq && timeout $(COQ_TIMEOUT) $(MAKE) -f Makefile.coq -j$(JOBS) --no-print-directory $(T)

harness:
	cp /repo/go.sum harness/go.sum
	cd harness && go build -tags verif -o ../build/harness .

# no escape hatches anywhere in the development
check-clean:
	@! grep -rnE '\b(Admitted|admit|Axiom|Parameter|Conjecture|Admit Obligations)\b|Unset Guard|bypass_check|type-in-type|impredicative-set' coq --include='*.v' \
	  || { echo "forbidden construct in coq/"; exit 1; }

coqchk: coq
	cd coq && timeout 7200 coqchk -silent -o -Q . MV $(M)

clean:
	rm -rf build coq/Makefile.coq coq/Makefile.coq.conf coq/_CoqProject coq/.Makefile.coq.d
	find coq \( -name '*.vo' -o -name '*.vok' -o -name '*.vos' -o -name '*.glob' -o -name '*.aux' \) -delete
