"""Shared machinery of the /verif checks.

A check (checks/cNN.py) generates cases from one seeded PRNG, runs the real
implementation on them through the Go harness (built from /repo's current
working tree with -tags verif), evaluates the Coq model and the verified
observers on the same cases inside Coq (vm_compute in a generated cases file),
compares, classifies, and writes evidence/<id>.json.
"""
import fcntl
import json
import os
import random
import re
import subprocess
import sys
import time
from concurrent.futures import ThreadPoolExecutor

ROOT = os.path.dirname(os.path.dirname(os.path.abspath(__file__)))
COQ = os.path.join(ROOT, "coq")
BUILD = os.path.join(ROOT, "build")
REPLAYS = os.path.join(ROOT, "replays")
EVID = os.path.join(ROOT, "evidence")
import hashlib
VERIF_REPO = os.environ.get("VERIF_REPO", "/repo").rstrip("/") or "/repo"
SFX0 = None
SFX = "" if VERIF_REPO == "/repo" else "_" + hashlib.md5((VERIF_REPO + "\n").encode()).hexdigest()[:8]
ENV = dict(os.environ, GOFLAGS="-mod=mod", GOPROXY="off", VERIF_REPO=VERIF_REPO)
if SFX:   # experiments against a scratch worktree never touch the committed evidence
    EVID = os.path.join(BUILD, "evidence" + SFX)
    REPLAYS = os.path.join(BUILD, "replays" + SFX)
ENV.pop("GOTOOLCHAIN", None)   # /repo needs go1.25.0: only GOTOOLCHAIN=auto finds it
ENV.pop("GOSUMDB", None)


# ---------------------------------------------------------------- Coq terms
class C:
    """Constructor / function application: C('Node', l, 3, r) -> (Node l 3 r)."""

    def __init__(self, head, *args):
        self.head, self.args = head, args


class Raw:
    def __init__(self, s):
        self.s = s


def coq(v):
    """Python value -> Coq term text (Z scope open, list notations on)."""
    if isinstance(v, Raw):
        return v.s
    if isinstance(v, bool):
        return "true" if v else "false"
    if isinstance(v, int):
        return str(v) if v >= 0 else "(%d)" % v
    if v is None:
        return "None"
    if isinstance(v, C):
        if not v.args:
            return v.head
        return "(" + v.head + " " + " ".join(coq(a) for a in v.args) + ")"
    if isinstance(v, tuple):
        return "(" + ", ".join(coq(a) for a in v) + ")"
    if isinstance(v, list):
        return "[" + "; ".join(coq(a) for a in v) + "]"
    if isinstance(v, (bytes, bytearray)):
        return "[" + "; ".join(str(b) for b in v) + "]"
    if isinstance(v, str):
        return coq(v.encode("utf-8"))
    raise TypeError("cannot encode %r" % (v,))


def Some(x):
    return C("Some", x)


# global CPU slots: several checks may run at once (the builders do that all the
# time); each coqc evaluation takes one of NSLOTS file locks so that the machine
# is never oversubscribed by case evaluation
NSLOTS = int(os.environ.get("VERIF_SLOTS", "16"))


def _slot():
    d = os.path.join(BUILD, "slots")
    os.makedirs(d, exist_ok=True)
    order = list(range(NSLOTS))
    random.shuffle(order)
    for k in order:
        f = open(os.path.join(d, "slot_%d.lock" % k), "w")
        try:
            fcntl.flock(f, fcntl.LOCK_EX | fcntl.LOCK_NB)
            return f
        except OSError:
            f.close()
    f = open(os.path.join(d, "slot_%d.lock" % order[0]), "w")
    fcntl.flock(f, fcntl.LOCK_EX)
    return f


# ------------------------------------------------------------------- check
class Check:
    def __init__(self, pid, tier, seed, level="proof"):
        self.pid, self.tier, self.seed, self.level = pid, tier, seed, level
        self.rng = random.Random("%s/%d" % (pid, seed))
        self.t0 = time.time()
        self.violations = []      # (replay_path, suffix)
        self.known_lines = []
        self.notes = []
        self.cov = {}
        self.assumptions = []
        self.trusted = []
        self.obl = (0, 0, [])
        self.proof_broken = None  # text naming the obligation that no longer checks
        os.makedirs(BUILD, exist_ok=True)
        os.makedirs(REPLAYS, exist_ok=True)
        os.makedirs(EVID, exist_ok=True)

    quick = property(lambda self: self.tier == "quick")

    def n(self, quick, thorough):
        return quick if self.tier == "quick" else thorough

    def log(self, *a):
        print("[%s %6.1fs]" % (self.pid, time.time() - self.t0), *a, flush=True)

    # ---- building
    def _locked(self, name):
        f = open(os.path.join(BUILD, name + ".lock"), "w")
        fcntl.flock(f, fcntl.LOCK_EX)
        return f

    def build_coq(self, targets):
        """Incremental build of the given .vo targets. Returns (ok, log)."""
        lk = self._locked("coq_py")
        try:
            p = subprocess.run(["make", "-C", ROOT, "--no-print-directory", "coq-only",
                                "T=" + " ".join(targets)],
                               stdout=subprocess.PIPE, stderr=subprocess.STDOUT, text=True, env=ENV)
            return p.returncode == 0, p.stdout
        finally:
            lk.close()

    def build_harness(self, name=None):
        lk = self._locked("go_py")
        try:
            p = subprocess.run(["make", "-C", ROOT, "--no-print-directory", "harness",
                                "P=" + (name or self.pid.lower())],
                               stdout=subprocess.PIPE, stderr=subprocess.STDOUT, text=True, env=ENV)
            if p.returncode != 0:
                raise RuntimeError("go build of the harness failed (does /repo compile?):\n" + p.stdout)
        finally:
            lk.close()

    # ---- proof obligations
    def obligations(self, props_mod=None):
        """Build coq/Props/<pid>.vo and record theorems + Print Assumptions.

        A failure is recorded (self.proof_broken) and the check goes on to look
        for a concrete failing input."""
        mod = props_mod or self.pid
        ok, log = self.build_coq(["Props/%s.vo" % mod, "Run/%s.vo" % mod])
        src = open(os.path.join(COQ, "Props", mod + ".v")).read()
        thms = re.findall(r"^\s*(?:Theorem|Corollary)\s+(\w+)", src, re.M)
        if not ok:
            self.proof_broken = "coq build of Props/%s.vo failed:\n%s" % (mod, log[-3000:])
            self.obl = (len(thms), 0, thms)
            self.log("PROOF OBLIGATION BROKEN")
            return False
        # re-run coqc on the (tiny) Props file to capture Print Assumptions
        os.makedirs(os.path.join(BUILD, "props"), exist_ok=True)
        p = subprocess.run(["coqc", "-Q", ".", "MV", "-o", os.path.join(BUILD, "props", "%s.vo" % mod),
                            "Props/%s.v" % mod], cwd=COQ, stdout=subprocess.PIPE,
                           stderr=subprocess.STDOUT, text=True)
        if p.returncode != 0:
            self.proof_broken = "coqc Props/%s.v failed:\n%s" % (mod, p.stdout[-3000:])
            self.obl = (len(thms), 0, thms)
            return False
        out = p.stdout
        closed = out.count("Closed under the global context")
        axioms = sorted(set(re.findall(r"^([A-Za-z_][\w.']*)\s*:", out, re.M)))
        axioms = [a for a in axioms if a not in ("Axioms",)]
        self.trusted = ["Coq 8.16.1 kernel (coqc), vm_compute",
                        "Print Assumptions: %d of %d statements closed under the global context"
                        % (closed, out.count("Closed under") + len(re.findall(r"^Axioms:", out, re.M)))]
        if axioms:
            self.trusted.append("axioms reported by Print Assumptions: " + ", ".join(axioms))
        self.obl = (len(thms), len(thms), thms)
        # C01 and C05 run coqchk themselves in their thorough tier
        if self.tier == "thorough" and os.environ.get("VERIF_COQCHK", "1") != "0" and self.pid not in ("C01", "C05"):
            self._start_coqchk(mod)
        return True

    # ---- independent re-check of the compiled theorems (thorough tier)
    def _start_coqchk(self, mod):
        """coqchk re-checks Props/<mod>.vo and everything it depends on with the
        independent checker and prints the axioms relied on (-o). It runs in the
        background while the correspondence cases are evaluated."""
        import threading
        self._coqchk = {"mod": mod, "rc": None, "out": ""}

        def work():
            try:
                p = subprocess.run(["nice", "coqchk", "-silent", "-o", "-Q", ".", "MV", "MV.Props." + mod],
                                   cwd=COQ, stdout=subprocess.PIPE, stderr=subprocess.STDOUT, text=True,
                                   timeout=int(os.environ.get("VERIF_COQCHK_TIMEOUT", "5400")))
                self._coqchk["rc"], self._coqchk["out"] = p.returncode, p.stdout
            except subprocess.TimeoutExpired:
                self._coqchk["rc"], self._coqchk["out"] = -1, "coqchk timed out"
        t = threading.Thread(target=work, daemon=True)
        t.start()
        self._coqchk["thread"] = t

    def _join_coqchk(self):
        c = getattr(self, "_coqchk", None)
        if not c:
            return
        c["thread"].join()
        out = c["out"]
        m = re.search(r"\* Axioms:\s*(.*?)\n\s*\n", out, re.S)
        axioms = " ".join(m.group(1).split()) if m else "?"
        if c["rc"] == 0:
            self.trusted.append("coqchk -o MV.Props.%s: ok, Axioms: %s" % (c["mod"], axioms))
        elif c["rc"] == -1:
            self.trusted.append("coqchk -o MV.Props.%s: not finished within the time limit (not a verdict)" % c["mod"])
        else:
            self.trusted.append("coqchk -o MV.Props.%s: FAILED" % c["mod"])
            if not self.proof_broken:
                self.proof_broken = "coqchk rejected MV.Props.%s:\n%s" % (c["mod"], out[-2000:])

    # ---- implementation side
    def run_go(self, runner, cases, timeout=1800, binary=None):
        """cases: list of JSON-serialisable values. Returns list of outcome dicts."""
        data = "\n".join(json.dumps(c, separators=(",", ":")) for c in cases) + "\n"
        p = subprocess.run([os.path.join(BUILD, "harness_" + (binary or self.pid.lower()) + SFX), runner], input=data,
                           stdout=subprocess.PIPE, stderr=subprocess.PIPE, text=True,
                           timeout=timeout, env=ENV)
        if p.returncode != 0:
            raise RuntimeError("harness %s exited %d: %s" % (runner, p.returncode, p.stderr[-2000:]))
        outs = [json.loads(l) for l in p.stdout.splitlines() if l.strip()]
        if len(outs) != len(cases):
            raise RuntimeError("harness %s: %d outputs for %d cases\n%s"
                               % (runner, len(outs), len(cases), p.stderr[-2000:]))
        return outs

    # ---- model side
    def run_coq(self, runmod, fn, terms, shard=400, tag="cases", timeout=1500, show=None):
        """Evaluate `fn : T -> Z` (from MV.Run.<runmod>) on each Coq term text.

        Returns the list of verdict codes (ints), one per term. The evaluation
        is vm_compute inside coqc on generated files, sharded over the cores."""
        if not terms:
            return []
        shards = [terms[i:i + shard] for i in range(0, len(terms), shard)]
        d = os.path.join(BUILD, "cases")
        os.makedirs(d, exist_ok=True)

        def one(k):
            name = "%s_%s_%d_%d" % (self.pid, tag, os.getpid(), k)
            path = os.path.join(d, name + ".v")
            with open(path, "w") as f:
                f.write("From Coq Require Import List ZArith.\nFrom MV Require Import Run.%s.\n" % runmod)
                f.write("Import ListNotations.\nOpen Scope Z_scope.\n")
                f.write("Definition R : list Z := Eval vm_compute in List.map %s [\n" % fn)
                f.write(";\n".join(shards[k]))
                f.write("\n].\nPrint R.\n")
            slot = _slot()
            try:
                p = subprocess.run(["coqc", "-Q", COQ, "MV", "-w", "none", path], cwd=d,
                                   stdout=subprocess.PIPE, stderr=subprocess.STDOUT, text=True,
                                   timeout=timeout)
            finally:
                slot.close()
            for ext in (".vo", ".glob", ".vok", ".vos"):
                try:
                    os.remove(os.path.join(d, name + ext))
                except OSError:
                    pass
            try:
                os.remove(os.path.join(d, "." + name + ".aux"))
            except OSError:
                pass
            if p.returncode != 0:
                raise RuntimeError("coqc on %s failed:\n%s" % (path, p.stdout[-3000:]))
            m = re.search(r"R\s*=\s*(.*?)\s*:\s*list Z", p.stdout, re.S)
            if not m:
                raise RuntimeError("cannot parse coqc output for %s:\n%s" % (path, p.stdout[-2000:]))
            vals = [int(x) for x in re.findall(r"-?\d+", m.group(1))]
            if len(vals) != len(shards[k]):
                raise RuntimeError("%s: %d verdicts for %d cases" % (path, len(vals), len(shards[k])))
            os.remove(path)
            return vals

        with ThreadPoolExecutor(max_workers=min(16, len(shards))) as ex:
            res = list(ex.map(one, range(len(shards))))
        return [v for r in res for v in r]

    def coq_show(self, runmod, expr):
        """Evaluate one expression and return Coq's printed value (for replays)."""
        d = os.path.join(BUILD, "cases")
        os.makedirs(d, exist_ok=True)
        name = "%s_show_%d" % (self.pid, os.getpid())
        path = os.path.join(d, name + ".v")
        with open(path, "w") as f:
            f.write("From Coq Require Import List ZArith.\nFrom MV Require Import Run.%s.\n" % runmod)
            f.write("Import ListNotations.\nOpen Scope Z_scope.\nEval vm_compute in (%s).\n" % expr)
        p = subprocess.run(["coqc", "-Q", COQ, "MV", "-w", "none", path], cwd=d,
                           stdout=subprocess.PIPE, stderr=subprocess.STDOUT, text=True, timeout=600)
        for ext in (".v", ".vo", ".glob", ".vok", ".vos"):
            try:
                os.remove(os.path.join(d, name + ext))
            except OSError:
                pass
        try:
            os.remove(os.path.join(d, "." + name + ".aux"))
        except OSError:
            pass
        return p.stdout.strip()

    # ---- results
    def violation(self, replay, suffix=""):
        """Record a violation; `replay` is a JSON-serialisable description."""
        k = len(self.violations)
        path = os.path.join(REPLAYS, "%s-%s-%d-%d.json" % (self.pid, self.tier, self.seed, k))
        with open(path, "w") as f:
            json.dump(replay, f, indent=1, default=str)
        self.violations.append((path, suffix))
        return path

    def known(self, what):
        self.known_lines.append(what)

    def finish(self, coverage, assumptions=()):
        self._join_coqchk()
        # a broken proof obligation with no concrete failing input is still a violation
        if self.proof_broken and not any(s == "" for _, s in self.violations):
            self.violation({"property": self.pid, "kind": "proof-obligation",
                            "no_longer_checks": self.proof_broken}, "no-failing-input-found")
        cov = dict(coverage)
        cov.setdefault("obligations", self.obl[0])
        cov.setdefault("discharged", self.obl[1])
        cov.setdefault("theorems", self.obl[2])
        cov.setdefault("checker_cmd", "make -C /verif coq-only T='Props/%s.vo' (coqc 8.16.1, full .vo build)" % self.pid)
        cov.setdefault("trusted_base", self.trusted)
        cov.setdefault("known_findings_reported", list(self.known_lines))
        ev = {"property_id": self.pid, "tier": self.tier, "seed": self.seed, "level": self.level,
              "coverage": cov, "assumptions": list(assumptions),
              "wall_s": round(time.time() - self.t0, 2), "violations": len(self.violations)}
        with open(os.path.join(EVID, self.pid + ".json"), "w") as f:
            json.dump(ev, f, indent=1, default=str)
        for line in self.known_lines:
            print("KNOWN-FINDING: property=%s %s" % (self.pid, line))
        for path, suffix in self.violations:
            print(("VIOLATION property=%s replay=%s %s" % (self.pid, path, suffix)).rstrip())
        self.log("done: %d violation(s), %d known finding(s), evaluations=%s"
                 % (len(self.violations), len(self.known_lines), cov.get("evaluations")))
        return 1 if self.violations else 0


def load_known():
    with open(os.path.join(ROOT, "known_findings.json")) as f:
        return json.load(f)


def known_for(pid):
    return [k for k in load_known()["findings"] if pid in k["properties"] and k["status"] == "known"]
